"""C02 tier P - unbounded number of constrained components: gaussian_constraint_combined / poisson_constraint_combined
make_pdf + logpdf under their class invariants.

For a symbolic number N of constrained components, NP parameters, NAUX auxiliary data (and A batch rows for the parameter
tensor) the object state is the abstract state of the class invariant: access_field addresses the parameter component k(n)
of the same batch row, normal_data / poisson_data hold the position d(n) of the auxiliary datum the configuration assigns
to component n, sigmas(n) / batched_factors(n) are the widths / rate factors.  The REAL make_pdf -> prob.Independent(prob.Normal
/ prob.Poisson) -> log_prob code is executed symbolically and the value is proved to be ONE reduction over the components
whose n-th term is  logN(aux[d(n)] | par[k(n)], sigma(n))   resp.   logPois(aux[d(n)] | par[k(n)] * factor(n))
- 'exactly one constraint term per constrained component, each pairing the parameter with the auxiliary datum at the
position the configuration assigns to it' for any number of components."""
import z3

from pyvc.tensor import PT, Lgamma, Log, Xlogy, flat_index
from pyvc.values import I, R, Rec
from .C01_appliers import _pars, _sum_terms
from .common import typed_opaque

CON = "constraints.py"


def t_constraint(T, kind, batched):
    cname = f"{kind}_constraint_combined"
    key = f"{CON}::{cname}.logpdf"
    eng = T.engine({"inline": [f"{CON}::", "probability.py::"]})
    f = T.under_contract(eng, key)
    T.under_contract(eng, f"{CON}::{cname}.make_pdf")
    T.under_contract(eng, "probability.py::Independent.log_prob")
    cls = eng.module(CON).get(cname)
    KF, DF = z3.Function("component_parameter", I, I), z3.Function("component_auxdatum", I, I)
    W = z3.Function("width_or_factor", I, R)
    AUX = z3.Function("auxdata", I, R)
    box = {}

    def thunk():
        N, NP, NAUX = z3.Ints("N NP NAUX")
        for d in (N, NP, NAUX):
            eng.assume(d >= 1)
        A = z3.Int("A") if batched else 1
        if batched:
            eng.assume(A >= 1)
        n_ = z3.Int("qn")
        eng.assume(z3.ForAll([n_], z3.And(KF(n_) >= 0, KF(n_) < NP, DF(n_) >= 0, DF(n_) < NAUX, W(n_) > 0)))
        pars, par_at = _pars(batched, A, NP)
        pv = typed_opaque(eng, "param_viewer", {})
        eng.path.__dict__.setdefault("opaque_attrs", {})[(pv.get_id(), "index_selection")] = [1]
        o = Rec(cls)
        af = PT((A, N), (lambda i: flat_index(i[0], NP, KF(i[1]))) if batched else (lambda i: KF(i[1])), "int")
        o.attrs.update({"batch_size": A if batched else None, "param_viewer": pv, "access_field": af})
        wshape = (A, N) if batched else (N,)
        wt = PT(wshape, lambda i: W(i[-1]), "real")
        dt = PT((N,), lambda i: DF(i[0]), "int")
        if kind == "gaussian":
            o.attrs.update({"sigmas": wt, "normal_data": dt})
        else:
            o.attrs.update({"batched_factors": PT((A, N), lambda i: W(i[1]), "real"), "poisson_data": dt})
        aux = PT((NAUX,), lambda i: AUX(i[0]), "real")
        box.update(N=N, A=A, par_at=par_at)
        return eng.call_function(f, [o, aux, pars], {}, force_inline=True)
    results = eng.explore(thunk)
    T.absorb(eng, results)
    tag = f"{kind},{'batched' if batched else 'unbatched'}"
    for k, r in enumerate(results):
        sfx = f"@{tag},path{k}"
        if r.kind != "return":
            T.fail(f"{key}#no-raise{sfx}", f"raises {r.exc_name} {getattr(r.value, 'eargs', '')}", kind="raises")
            continue
        N, A, par_at = box["N"], box["A"], box["par_at"]
        v = r.value
        hy = r.path.hyps()
        if batched:
            ok = isinstance(v, PT) and len(v.shape) == 1
            g = z3.Int("g_row")
            val = v.fn((g,)) if ok else None
            bounds, row = [g >= 0, g < A], g
        else:
            ok = not isinstance(v, PT) or v.shape == ()
            val = (v.fn(()) if isinstance(v, PT) else eng.to_real(v)) if ok else None
            bounds, row = [], z3.IntVal(0)
        node = None
        if ok:
            cands = [t for t in _sum_terms(val) if t.get_id() in eng.reductions]
            node = eng.reductions[cands[0].get_id()] if len(cands) == 1 else None
        if node is None or node.kind != "sum":
            T.fail(f"{key}#post.one-term-per-constrained-component{sfx}", "the value is not a single sum over the constrained components", kind="structure")
            continue
        n = node.var
        par, aux, w = par_at(row, KF(n)), AUX(DF(n)), W(n)
        if kind == "gaussian":
            term = -Log(w) - z3.Real("LOG_SQRT_2PI") - ((aux - par) * (aux - par)) / (2 * w * w)
        else:
            term = Xlogy(aux, par * w) - par * w - Lgamma(aux + 1)
        T.ob(eng, f"{key}#post.one-term-per-constrained-component{sfx}", hy + bounds + [n >= 0, n < N], z3.And(node.n == N, node.body == term))
        T.ob(eng, f"{key}#post.value-is-that-sum-and-nothing-else{sfx}", hy + bounds, eng.to_real(val) == node.term)
    if not results:
        T.fail(f"{key}#no-raise@{tag}", "no path", kind="raises")


def t_no_constraint(T, kind):
    """without constrained components of that family there is no pdf object (make_pdf is None, has_pdf False): the family
    contributes no term.  (The classes' own logpdf method is not on any path of Model.logpdf and is not under contract.)"""
    cname = f"{kind}_constraint_combined"
    key = f"{CON}::{cname}.make_pdf"
    for batched in (False, True):
        eng = T.engine({"inline": [f"{CON}::", "probability.py::"]})
        f = T.under_contract(eng, key)
        h = eng.func(f"{CON}::{cname}.has_pdf")
        cls = eng.module(CON).get(cname)

        def thunk():
            pv = typed_opaque(eng, "param_viewer", {})
            eng.path.__dict__.setdefault("opaque_attrs", {})[(pv.get_id(), "index_selection")] = []
            o = Rec(cls)
            o.attrs.update({"batch_size": 3 if batched else None, "param_viewer": pv})
            NP = z3.Int("NP")
            eng.assume(NP >= 1)
            pars, _ = _pars(batched, 3, NP)
            return eng.call_function(f, [o, pars], {}, force_inline=True), eng.call_function(h, [o], {}, force_inline=True)
        for k, r in enumerate(eng.explore(thunk)):
            sfx = f"@{kind},{'batched' if batched else 'unbatched'},path{k}"
            ok = r.kind == "return" and r.value[0] is None and r.value[1] is False
            (T.ok if ok else T.fail)(f"{key}#post.no-pdf-without-constrained-components{sfx}", *([] if ok else [f"{r.kind}: {getattr(r, 'value', None)!r}"]))


def tierp_tasks(tier):
    out = []
    for kind in ("gaussian", "poisson"):
        for batched in (False, True):
            out.append((f"tierP[{kind}_constraint,{'batched' if batched else 'unbatched'}]", (lambda k, b: lambda T: t_constraint(T, k, b))(kind, batched)))
        out.append((f"tierP[{kind}_constraint,none]", (lambda k: lambda T: t_no_constraint(T, k))(kind)))
    return out


# ---------------------------------------------------------------- _TensorViewer.stitch / split for any partition
def t_tensorviewer(T, batched):
    """class invariant of _TensorViewer: the concatenated partition indices c(t), t < n, are a permutation of 0..n-1 and
    sorted_indices is its inverse (what argsort computes).  For K = 2 parts of symbolic sizes n0, n1:
       stitch([d0, d1])[.., c(t)] == (d0 ++ d1)[.., t]      (every datum lands at the position its index names)
       split(x)[k][.., j]        == x[.., index_k(j)]
    for data with or without leading (sample / batch) axes."""
    key = "tensor/common.py::_TensorViewer.stitch"
    eng = T.engine({"inline": ["tensor/common.py::"]})
    f = T.under_contract(eng, key)
    g = T.under_contract(eng, "tensor/common.py::_TensorViewer.split")
    cls = eng.module("tensor/common.py").get("_TensorViewer")
    Cc, Sg = z3.Function("concat_index", I, I), z3.Function("sorted_index", I, I)
    box = {}

    def thunk():
        n0, n1 = z3.Ints("n0 n1")
        eng.assume(n0 >= 1)
        eng.assume(n1 >= 1)
        n = n0 + n1
        t_ = z3.Int("qt")
        eng.assume(z3.ForAll([t_], z3.Implies(z3.And(t_ >= 0, t_ < n), z3.And(Cc(t_) >= 0, Cc(t_) < n, Sg(Cc(t_)) == t_))))
        eng.assume(z3.ForAll([t_], z3.Implies(z3.And(t_ >= 0, t_ < n), z3.And(Sg(t_) >= 0, Sg(t_) < n, Cc(Sg(t_)) == t_))))
        o = Rec(cls)
        p0 = PT((n0,), lambda i: Cc(i[0]), "int")
        p1 = PT((n1,), lambda i: Cc(n0 + i[0]), "int")
        o.attrs.update({"partition_indices": [p0, p1], "sorted_indices": PT((n,), lambda i: Sg(i[0]), "int"), "batch_size": None, "names": None})
        lead = (z3.Int("L"),) if batched else ()
        if batched:
            eng.assume(lead[0] >= 1)
        D0 = z3.Function("data0", *([I] * (len(lead) + 1)), R)
        D1 = z3.Function("data1", *([I] * (len(lead) + 1)), R)
        X = z3.Function("xdata", *([I] * (len(lead) + 1)), R)
        d0 = PT(lead + (n0,), lambda i: D0(*i), "real")
        d1 = PT(lead + (n1,), lambda i: D1(*i), "real")
        x = PT(lead + (n,), lambda i: X(*i), "real")
        box.update(n0=n0, n1=n1, n=n, lead=lead, D0=D0, D1=D1, X=X)
        return eng.call_function(f, [o, [d0, d1]], {}, force_inline=True), eng.call_function(g, [o, x], {}, force_inline=True)
    results = eng.explore(thunk)
    T.absorb(eng, results)
    tag = "leading-axis" if batched else "flat"
    for k, r in enumerate(results):
        sfx = f"@{tag},path{k}"
        if r.kind != "return":
            T.fail(f"{key}#no-raise{sfx}", f"raises {r.exc_name} {getattr(r.value, 'eargs', '')}", kind="raises")
            continue
        st, sp = r.value
        n0, n1, n, lead, D0, D1, X = (box[v] for v in ("n0", "n1", "n", "lead", "D0", "D1", "X"))
        hy = r.path.hyps()
        ok = isinstance(st, PT) and len(st.shape) == len(lead) + 1 and isinstance(sp, list) and len(sp) == 2 and all(isinstance(p, PT) for p in sp)
        (T.ok if ok else T.fail)(f"{key}#post.shapes{sfx}", *([] if ok else ["unexpected result structure"]), kind="structure")
        if not ok:
            continue
        t = z3.Int("t_gen")
        li = tuple(z3.Int(f"l{q}") for q in range(len(lead)))
        lb = [z3.And(a >= 0, a < d) for a, d in zip(li, lead)]
        src = z3.If(t < n0, D0(*li, t), D1(*li, t - n0))
        T.ob(eng, f"{key}#post.every-datum-lands-at-the-position-its-index-names{sfx}", hy + lb + [t >= 0, t < n], eng.to_real(st.fn(li + (Cc(t),))) == src)
        T.ob(eng, f"{key}#post.length-is-the-total{sfx}", hy, st.shape[-1] == n if z3.is_expr(st.shape[-1]) else z3.BoolVal(False))
        j = z3.Int("j_gen")
        T.ob(eng, "tensor/common.py::_TensorViewer.split#post.part-k-reads-its-own-indices" + sfx, hy + lb + [j >= 0],
             z3.And(z3.Implies(j < n0, eng.to_real(sp[0].fn(li + (j,))) == X(*li, Cc(j))), z3.Implies(j < n1, eng.to_real(sp[1].fn(li + (j,))) == X(*li, Cc(n0 + j)))))
    if not results:
        T.fail(f"{key}#no-raise@{tag}", "no path", kind="raises")


_tierp_base = tierp_tasks


def tierp_tasks(tier):
    out = _tierp_base(tier)
    for batched in (False, True):
        out.append((f"tierP[_TensorViewer,{'leading-axis' if batched else 'flat'}]", (lambda b: lambda T: t_tensorviewer(T, b))(batched)))
    return out
